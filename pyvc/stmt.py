"""Statement execution (symbolic)."""
from __future__ import annotations

import ast

import z3

from .core import (SV, SInt, SBool, SSeq, SDict, Obj, Closure, ClassVal, Stub, PyRaise, Unsupported,
                   Val, to_val, to_int, to_bool_term, cls_const, sub, IntS, Cls)
from .env import Env, _MISSING
from .expr import seq_of, _len_term, SCls


class _Return(Exception):
    def __init__(self, value):
        self.value = value


class _Break(Exception):
    pass


class _Continue(Exception):
    pass


class LoopSpec:
    """Contract of a loop that cannot be unrolled.

    state_vars:  names of locals the loop modifies (checked against the AST: every assigned name
                 in the body must be listed, else Unsupported)
    havoc(interp, path, env, k) -> None : bind fresh symbolic values for the state variables
    inv(interp, path, env, k) -> z3 Bool : invariant over the environment after k iterations
    The engine generates: init (k=0), preservation for every body path, and assumes inv(len) after.
    """

    def __init__(self, name, havoc, inv, on_exit=None):
        self.name = name
        self.havoc = havoc
        self.inv = inv
        self.on_exit = on_exit


def _is_ref(n, name):
    """`name` is a variable, or a dotted attribute path of one (`self.routines`): is the node a reference to exactly that?"""
    if isinstance(n, ast.Name):
        return n.id == name
    return isinstance(n, ast.Attribute) and "." in name and ast.unparse(n) == name


def _mentions(node, name):
    if any(_is_ref(n, name) for n in ast.walk(node)):
        return True
    if "." in name:
        # the object itself escaping (`f(self)`) could read the attribute: only `self.<something>` uses are harmless
        base = name.split(".")[0]
        under_attr = {id(n.value) for n in ast.walk(node) if isinstance(n, ast.Attribute)}
        return any(isinstance(n, ast.Name) and n.id == base and id(n) not in under_attr for n in ast.walk(node))
    return False


def _accumulation(loop: ast.For, acc: str):
    """If `loop` does nothing but fill the container `acc` - optionally behind `if c: continue` guards, an enclosing
    `if c:` without else, or further such loops nested inside - return (generators, ('dict', key, value) | ('list', elt)): the
    comprehension that denotes the same container.  None when the loop is anything else."""
    if loop.orelse or _mentions(loop.iter, acc) or _mentions(loop.target, acc):
        return None
    ifs, body = [], list(loop.body)
    while len(body) > 1:
        g = body[0]
        if not (isinstance(g, ast.If) and not g.orelse and len(g.body) == 1 and isinstance(g.body[0], ast.Continue)):
            break
        if _mentions(g.test, acc):
            return None
        ifs.append(ast.UnaryOp(op=ast.Not(), operand=g.test))
        body = body[1:]
    # `key = f(k)` bound just before `acc[key] = g(v)`: the key expression is evaluated first, as in the dict display
    key_temp = None
    if len(body) == 2 and isinstance(body[0], ast.Assign) and len(body[0].targets) == 1 and isinstance(body[0].targets[0], ast.Name) \
            and not _mentions(body[0].value, acc) and isinstance(body[1], ast.Assign) and len(body[1].targets) == 1 \
            and isinstance(body[1].targets[0], ast.Subscript) and isinstance(body[1].targets[0].slice, ast.Name) \
            and body[1].targets[0].slice.id == body[0].targets[0].id and not _mentions(body[1].value, body[0].targets[0].id):
        key_temp = body[0].value
        body = body[1:]
    # `k2 = f(k); v2 = g(v); acc[k2] = v2`: key temp first, then value temp - the order a dict display evaluates them in
    if key_temp is None and len(body) == 3 and all(isinstance(b, ast.Assign) and len(b.targets) == 1 for b in body) \
            and isinstance(body[0].targets[0], ast.Name) and isinstance(body[1].targets[0], ast.Name) \
            and isinstance(body[2].targets[0], ast.Subscript) and _is_ref(body[2].targets[0].value, acc) \
            and isinstance(body[2].targets[0].slice, ast.Name) and body[2].targets[0].slice.id == body[0].targets[0].id \
            and isinstance(body[2].value, ast.Name) and body[2].value.id == body[1].targets[0].id \
            and body[0].targets[0].id != body[1].targets[0].id \
            and not _mentions(body[0].value, acc) and not _mentions(body[1].value, acc) \
            and not _mentions(body[1].value, body[0].targets[0].id) and not _mentions(body[0].value, body[1].targets[0].id):
        gen = ast.comprehension(target=loop.target, iter=loop.iter, ifs=ifs, is_async=0)
        return [gen], ("dict", body[0].value, body[1].value)
    if len(body) != 1:
        return None
    st = body[0]
    while isinstance(st, ast.If) and not st.orelse and len(st.body) == 1 and not _mentions(st.test, acc):
        ifs.append(st.test)
        st = st.body[0]
    gen = ast.comprehension(target=loop.target, iter=loop.iter, ifs=ifs, is_async=0)
    if key_temp is not None:
        if isinstance(st, ast.Assign) and isinstance(st.targets[0], ast.Subscript) and _is_ref(st.targets[0].value, acc) \
                and not _mentions(st.value, acc):
            return [gen], ("dict", key_temp, st.value)
        return None
    if isinstance(st, ast.For):
        inner = _accumulation(st, acc)
        return None if inner is None else ([gen] + inner[0], inner[1])
    if isinstance(st, ast.Assign) and len(st.targets) == 1 and isinstance(st.targets[0], ast.Subscript) \
            and _is_ref(st.targets[0].value, acc):
        key = st.targets[0].slice
        # `acc[k] = v` evaluates v before k, a dict display k before v: only a side-effect free key keeps the order immaterial
        if not isinstance(key, (ast.Name, ast.Constant)) or _mentions(key, acc) or _mentions(st.value, acc):
            return None
        return [gen], ("dict", key, st.value)
    if isinstance(st, ast.Expr) and isinstance(st.value, ast.Call) and isinstance(st.value.func, ast.Attribute) \
            and st.value.func.attr == "append" and _is_ref(st.value.func.value, acc) \
            and len(st.value.args) == 1 and not st.value.keywords and not _mentions(st.value.args[0], acc):
        return [gen], ("list", st.value.args[0])
    return None


_FELL_THROUGH = object()


def _search_loop(loop: ast.For):
    """([filter conditions], returned expression) when the loop is a first-match search: guards `if g: continue`, then
    `return e` or `if c: return e`; nothing else, no else clause, no break."""
    if loop.orelse:
        return None
    ifs, body = [], list(loop.body)
    while len(body) > 1:
        g = body[0]
        if not (isinstance(g, ast.If) and not g.orelse and len(g.body) == 1 and isinstance(g.body[0], ast.Continue)):
            return None
        ifs.append(ast.UnaryOp(op=ast.Not(), operand=g.test))
        body = body[1:]
    if len(body) != 1:
        return None
    st = body[0]
    while isinstance(st, ast.If) and not st.orelse and len(st.body) == 1:
        ifs.append(st.test)
        st = st.body[0]
    if isinstance(st, ast.Return) and st.value is not None and ifs:
        return ifs, st.value
    return None


def _search_assign_loop(loop: ast.For):
    """(filters, name, expression) when the loop is `[if g: continue]* if c: name = e; break`: the first match is kept in `name`
    (an `else:` clause of the loop runs when nothing matched - the caller executes it)."""
    ifs, body = [], list(loop.body)
    while len(body) > 1:
        g = body[0]
        if not (isinstance(g, ast.If) and not g.orelse and len(g.body) == 1 and isinstance(g.body[0], ast.Continue)):
            return None
        ifs.append(ast.UnaryOp(op=ast.Not(), operand=g.test))
        body = body[1:]
    if len(body) != 1 or not isinstance(body[0], ast.If) or body[0].orelse:
        return None
    ifs.append(body[0].test)
    inner = body[0].body
    if len(inner) == 2 and isinstance(inner[0], ast.Assign) and len(inner[0].targets) == 1 and isinstance(inner[0].targets[0], ast.Name) \
            and isinstance(inner[1], ast.Break) and not _mentions(ast.Module(body=[ast.Expr(value=t) for t in ifs], type_ignores=[]), inner[0].targets[0].id):
        return ifs, inner[0].targets[0].id, inner[0].value
    return None


def _empty_container(stmt):
    """('dict' | 'list', name) when stmt is `name = {}` / `name = []` / `name = dict()` / `name = list()` (also annotated)."""
    def _tname(t):
        # a variable, or an attribute of a plain variable (`self.routines`)
        if isinstance(t, ast.Name):
            return t.id
        if isinstance(t, ast.Attribute) and isinstance(t.value, ast.Name):
            return ast.unparse(t)
        return None
    if isinstance(stmt, ast.Assign) and len(stmt.targets) == 1 and _tname(stmt.targets[0]):
        name, v = _tname(stmt.targets[0]), stmt.value
    elif isinstance(stmt, ast.AnnAssign) and _tname(stmt.target) and stmt.value is not None:
        name, v = _tname(stmt.target), stmt.value
    else:
        return None
    if isinstance(v, ast.Dict) and not v.keys:
        return "dict", name
    if isinstance(v, ast.List) and not v.elts:
        return "list", name
    if isinstance(v, ast.Call) and isinstance(v.func, ast.Name) and v.func.id in ("dict", "list") and not v.args and not v.keywords:
        return v.func.id, name
    return None


class StmtMixin:
    def exec_block(self, stmts, env, path):
        i = 0
        while i < len(stmts):
            s = stmts[i]
            # `acc = {}` / `acc = []` followed by a loop that only fills it is the comprehension it spells out (unless a loop
            # contract is registered for that loop): the two are interchangeable in the source without any change of meaning
            if i + 1 < len(stmts) and isinstance(stmts[i + 1], ast.For):
                ec = _empty_container(s)
                if ec is not None and self.loop_spec_for(stmts[i + 1], env) is None:
                    acc = _accumulation(stmts[i + 1], ec[1])
                    if acc is not None and acc[1][0] == ec[0]:
                        gens, what = acc
                        comp = (ast.DictComp(key=what[1], value=what[2], generators=gens) if what[0] == "dict"
                                else ast.ListComp(elt=what[1], generators=gens))
                        tgt = ast.parse(ec[1], mode="eval").body
                        tgt.ctx = ast.Store()
                        new = ast.Assign(targets=[tgt], value=comp)
                        ast.copy_location(new, stmts[i + 1])
                        ast.fix_missing_locations(new)
                        self.exec(new, env, path)
                        i += 2
                        continue
            self.exec(s, env, path)
            i += 1

    def exec(self, node, env, path):
        m = getattr(self, "s_" + node.__class__.__name__, None)
        if m is None:
            raise Unsupported(f"statement {node.__class__.__name__} at line {node.lineno}")
        self.cur_line = getattr(node, "lineno", None)
        return m(node, env, path)

    def s_Pass(self, node, env, path):
        pass

    def s_Expr(self, node, env, path):
        if isinstance(node.value, ast.Constant):
            return
        if isinstance(node.value, (ast.Yield, ast.YieldFrom)):
            return self.do_yield(node.value, env, path)
        self.eval(node.value, env, path)

    def do_yield(self, node, env, path):
        sink = env.lookup("$yield")
        if sink is _MISSING:
            raise Unsupported("yield outside generator")
        if isinstance(node, ast.Yield):
            sink.append(("one", self.eval(node.value, env, path)))
        else:
            sink.append(("from", self.eval(node.value, env, path)))

    def s_Return(self, node, env, path):
        raise _Return(self.eval(node.value, env, path) if node.value is not None else None)

    def s_Assign(self, node, env, path):
        v = self.eval(node.value, env, path)
        for t in node.targets:
            self.assign_target(t, v, env, path)

    def s_AnnAssign(self, node, env, path):
        if node.value is not None:
            self.assign_target(node.target, self.eval(node.value, env, path), env, path)

    def s_AugAssign(self, node, env, path):
        cur = self.eval(_load(node.target), env, path)
        v = self.binop(node.op, cur, self.eval(node.value, env, path), path)
        self.assign_target(node.target, v, env, path)

    def assign_target(self, t, v, env, path):
        if isinstance(t, ast.Name):
            env.set(t.id, v)
            return
        if isinstance(t, (ast.Tuple, ast.List)):
            star = [i for i, e in enumerate(t.elts) if isinstance(e, ast.Starred)]
            s = seq_of(v)
            if s is None:
                s = self.iter_seq(v, path)
            n = len(t.elts)
            if not star:
                if isinstance(s.length, int):
                    if s.length != n:
                        raise PyRaise(ValueError, note="unpack arity")
                else:
                    if not path.branch(s.length == n):
                        raise PyRaise(ValueError, note="unpack arity")
                for i, e in enumerate(t.elts):
                    self.assign_target(e, s.at(i), env, path)
                return
            si = star[0]
            before, after = si, n - si - 1
            if isinstance(s.length, int):
                if s.length < before + after:
                    raise PyRaise(ValueError, note="unpack arity")
            else:
                if not path.branch(s.length >= before + after):
                    raise PyRaise(ValueError, note="unpack arity")
            for i in range(before):
                self.assign_target(t.elts[i], s.at(i), env, path)
            mid = self.slice(s, before, (-after if after else None), path)
            self.assign_target(t.elts[si].value, mid, env, path)
            for j in range(after):
                self.assign_target(t.elts[si + 1 + j], self.subscript(s, -(after - j), path), env, path)
            return
        if isinstance(t, ast.Attribute):
            obj = self.eval(t.value, env, path)
            self.setattr(obj, t.attr, v, path)
            return
        if isinstance(t, ast.Subscript):
            obj = self.eval(t.value, env, path)
            idx = self.eval(t.slice, env, path)
            self.setitem(obj, idx, v, path)
            return
        raise Unsupported(f"assignment target {t.__class__.__name__}")

    def setattr(self, obj, attr, v, path):
        if isinstance(obj, Obj):
            self.frame_writes.append(("attr", obj, attr))
            obj.fields[attr] = v
            return
        h = self.hooks.get("setattr")
        if h:
            return h(self, path, obj, attr, v)
        raise Unsupported(f"attribute store on {obj!r}")

    def setitem(self, obj, idx, v, path):
        h0 = self.hooks.get("setitem_pre")
        if h0 is not None and h0(self, path, obj, idx, v) is True:
            return
        if isinstance(obj, dict):
            if isinstance(idx, (SV, SInt, SBool)):
                raise Unsupported("symbolic key store into concrete dict")
            obj[idx] = v
            return
        if isinstance(obj, SDict):
            if obj.arrays is None:
                raise Unsupported("store into non-updatable functional dict")
            has_arr, val_arr = obj.arrays
            k = to_val(idx)
            new_has = z3.Store(has_arr, k, z3.BoolVal(True))
            new_val = z3.Store(val_arr, k, to_val(v))
            obj.arrays = (new_has, new_val)
            obj.has = lambda key, a=new_has: z3.Select(a, key)
            obj.get = lambda key, a=new_val: SV(z3.Select(a, key))
            obj.keyseq = None
            self.frame_writes.append(("item", obj, idx))
            return
        if isinstance(obj, Obj):
            m = self.find_method(obj.cls, "__setitem__")
            if m is not None:
                return self.call_value(m.bind(obj), [idx, v], {}, path)
            h = self.hooks.get("obj_setitem")
            if h:
                return h(self, path, obj, idx, v)
        if isinstance(obj, list) and isinstance(idx, int):
            obj[idx] = v
            return
        raise Unsupported(f"item store on {obj!r}")

    def s_If(self, node, env, path):
        c = self.eval(node.test, env, path)
        if self.truth(c, path):
            self.exec_block(node.body, env, path)
        else:
            self.exec_block(node.orelse, env, path)

    def s_Raise(self, node, env, path):
        if node.exc is None:
            cur = env.lookup("$exc")
            if cur is _MISSING:
                raise Unsupported("bare raise outside except")
            raise cur
        if isinstance(node.exc, ast.Call):
            cls = self.eval(node.exc.func, env, path)
            payload = None
            try:
                args = [self.eval(a, env, path) for a in node.exc.args]
                payload = args[0] if args else None
            except Unsupported:
                payload = None     # message formatting is irrelevant to behaviour
        else:
            cls = self.eval(node.exc, env, path)
            payload = None
        if isinstance(cls, ClassVal):
            cls = cls.pycls or Exception
        raise PyRaise(cls, payload=payload)

    def exc_matches(self, exc: PyRaise, classes, path) -> bool:
        """Does `except classes` catch exc?  classes: list of python exception classes."""
        ec = exc.exc_cls
        if isinstance(ec, type):
            return any(issubclass(ec, c) for c in classes)
        cond = z3.Or(*[sub(ec, cls_const(c)) for c in classes])
        return path.branch(cond)

    def _exc_classes(self, node, env, path):
        if node is None:
            return [BaseException]
        v = self.eval(node, env, path)
        if isinstance(v, (tuple, list)):
            return list(v)
        return [v]

    def s_Try(self, node, env, path):
        if node.finalbody:
            # the final block runs however the protected block is left (normally, by an exception, return, break, continue)
            inner = ast.Try(body=node.body, handlers=node.handlers, orelse=node.orelse, finalbody=[])
            try:
                self.s_Try(inner, env, path)
            except (PyRaise, _Return, _Break, _Continue):
                self.exec_block(node.finalbody, env, path)
                raise
            self.exec_block(node.finalbody, env, path)
            return
        try:
            self.exec_block(node.body, env, path)
        except PyRaise as exc:
            for h in node.handlers:
                classes = self._exc_classes(h.type, env, path)
                if self.exc_matches(exc, classes, path):
                    e2 = env
                    if h.name:
                        env.set(h.name, exc.payload if exc.payload is not None else SV(path.fresh("exc")))
                    old = env.vars.get("$exc", _MISSING)
                    env.set("$exc", exc)
                    try:
                        self.exec_block(h.body, e2, path)
                    finally:
                        if old is _MISSING:
                            env.vars.pop("$exc", None)
                        else:
                            env.set("$exc", old)
                    return
            raise
        else:
            self.exec_block(node.orelse, env, path)

    def s_With(self, node, env, path):
        if len(node.items) != 1:
            raise Unsupported("multi-item with")
        ce = node.items[0].context_expr
        if isinstance(ce, ast.Call) and ast.unparse(ce.func).endswith("suppress"):
            classes = []
            for a in ce.args:
                classes.extend(self._exc_classes(a, env, path))
            try:
                self.exec_block(node.body, env, path)
            except PyRaise as exc:
                if self.exc_matches(exc, classes, path):
                    return
                raise
            return
        raise Unsupported(f"with {ast.unparse(ce)}")

    def s_Assert(self, node, env, path):
        c = self.eval(node.test, env, path)
        if not self.truth(c, path):
            raise PyRaise(AssertionError)

    def s_Continue(self, node, env, path):
        raise _Continue()

    def s_Break(self, node, env, path):
        raise _Break()

    def s_FunctionDef(self, node, env, path):
        fn = self.make_function(node, env, f"{env.qual}.<locals>.{node.name}", env.module)
        for dec in reversed(node.decorator_list):
            d = self.eval(dec, env, path)
            fn = self.call_value(d, [fn], {}, path)
        env.set(node.name, fn)

    def s_Import(self, node, env, path):
        import importlib
        for a in node.names:
            env.set(a.asname or a.name.split(".")[0], importlib.import_module(a.name if a.asname else a.name.split(".")[0]))

    def s_Global(self, node, env, path):
        raise Unsupported("global statement")

    def s_Delete(self, node, env, path):
        raise Unsupported("del statement")

    # ------------------------------------------------------------------ loops
    def s_For(self, node, env, path):
        spec = self.loop_spec_for(node, env)
        if spec is None:
            srch = _search_loop(node)
            if srch is not None:
                # `for x in xs: [if g: continue]* if c: return e`  is  `next((e for x in xs if not g ... if c), <fall through>)`:
                # the first element that passes is returned, none passing falls through - read through the same exact
                # characterisation (a Skolem index with "no earlier one passes") as next() on a filtered generator
                from .expr import FilteredGen
                from .builtins_model import m_next
                gen = ast.GeneratorExp(elt=srch[1], generators=[ast.comprehension(target=node.target, iter=node.iter, ifs=srch[0], is_async=0)])
                ast.copy_location(gen, node)
                ast.fix_missing_locations(gen)
                fg = self.eval(gen, env, path)
                if isinstance(fg, FilteredGen):
                    r = m_next(self, path, [fg, _FELL_THROUGH], {})
                    if r is not _FELL_THROUGH:
                        raise _Return(r)
                    self.exec_block(node.orelse, env, path)
                    return
            sa = _search_assign_loop(node)
            if sa is not None:
                # `... if c: name = e; break`: name keeps the first match, or its value from before the loop
                from .expr import FilteredGen
                from .builtins_model import m_next
                gen = ast.GeneratorExp(elt=sa[2], generators=[ast.comprehension(target=node.target, iter=node.iter, ifs=sa[0], is_async=0)])
                ast.copy_location(gen, node)
                ast.fix_missing_locations(gen)
                fg = self.eval(gen, env, path)
                if isinstance(fg, FilteredGen):
                    r = m_next(self, path, [fg, _FELL_THROUGH], {})
                    if r is not _FELL_THROUGH:
                        env.set(sa[1], r)
                    else:
                        self.exec_block(node.orelse, env, path)     # no `break` happened
                    return
        it = self.eval(node.iter, env, path)
        src = self.iter_seq(it, path, for_loop=True)
        n = src.length
        if isinstance(n, int) and spec is None:
            if src.elem_raises is not None:
                self.materialise_raises(src, path)
            broke = False
            for k in range(n):
                self.assign_target(node.target, src.at(k), env, path)
                try:
                    self.exec_block(node.body, env, path)
                except _Continue:
                    continue
                except _Break:
                    broke = True
                    break
            if not broke:
                self.exec_block(node.orelse, env, path)
            return
        if spec is None:
            raise Unsupported(f"loop over symbolic-length source without invariant (line {node.lineno})")
        self.run_loop_with_spec(node, env, path, src, spec)

    def loop_spec_for(self, node, env):
        key = (env.qual, node.lineno)
        for (q, ordinal), spec in self.loop_specs.items():
            if q == env.qual:
                if callable(ordinal):             # the loop is identified by what it iterates over / does, not by its position
                    if ordinal(node):
                        return spec
                    continue
                loops = self.loops_of(env.qual)
                if ordinal < len(loops) and loops[ordinal] is node:
                    return spec
        return None

    def loops_of(self, qual):
        node = self.fn_nodes.get(qual)
        if node is None:
            return []
        return [n for n in ast.walk(node) if isinstance(n, (ast.For, ast.While))]

    def run_loop_with_spec(self, node, env, path, src, spec: LoopSpec):
        """Inductive treatment.  The exploration is split by a branch on a fresh boolean:
        (A) 'init'      : prove inv at k=0 (recorded as an obligation), stop this path;
        (B) 'preserve'  : havoc, assume inv(k), 0<=k<n, run body, record obligation inv(k+1), stop;
        (C) 'exit'      : havoc, assume inv(n), continue after the loop.
        """
        n = _len_term(src.length)
        mode_a = path.branch(path.fresh("loop_init", z3.BoolSort()))
        if mode_a:
            self.obligations.append(("loop-init:" + spec.name, path.hyps, spec.inv(self, path, env, z3.IntVal(0))))
            raise _PathEnd("loop-init")
        mode_b = path.branch(path.fresh("loop_step", z3.BoolSort()))
        if mode_b:
            k = path.fresh("k", IntS)
            path.loop_k[spec.name] = k
            spec.havoc(self, path, env, k)
            path.assume(z3.And(k >= 0, k < n))
            path.assume(spec.inv(self, path, env, k))
            self.assign_target(node.target, src.at(SInt(k)), env, path)
            try:
                self.exec_block(node.body, env, path)
            except _Continue:
                pass
            except _Break:
                raise Unsupported("break in loop under invariant")
            self.obligations.append(("loop-preserve:" + spec.name, path.hyps,
                                     spec.inv(self, path, env, k + 1)))
            raise _PathEnd("loop-preserve")
        spec.havoc(self, path, env, n)
        path.assume(spec.inv(self, path, env, n))
        self.exec_block(node.orelse, env, path)

    def s_While(self, node, env, path):
        spec = self.loop_spec_for(node, env)
        if spec is None:
            # bounded concrete unrolling is only allowed when the test is concrete throughout
            for _ in range(10_000):
                c = self.eval(node.test, env, path)
                if isinstance(c, (SV, SInt, SBool, SSeq)):
                    raise Unsupported(f"while loop with symbolic test and no invariant (line {node.lineno})")
                if not self.truth(c, path):
                    break
                try:
                    self.exec_block(node.body, env, path)
                except _Continue:
                    continue
                except _Break:
                    break
            return
        self.run_while_with_spec(node, env, path, spec)

    def run_while_with_spec(self, node, env, path, spec):
        """Inductive treatment of a while loop.
        (A) init: the invariant holds on entry (obligation), path ends;
        (B) arbitrary iteration: havoc the loop state, assume the invariant; if the test is false the loop is
            left and execution continues after it; if it is true the body runs: a `return`/`raise` leaves the
            function under the invariant, otherwise the invariant must be re-established (obligation) and the
            variant must decrease (obligation, when a variant is given); path ends."""
        if path.branch(path.fresh("loop_init", z3.BoolSort())):
            self.obligations.append(("loop-init:" + spec.name, path.hyps, spec.inv(self, path, env, None)))
            raise _PathEnd("loop-init")
        spec.havoc(self, path, env, None)
        path.assume(spec.inv(self, path, env, None))
        v0 = spec.variant(self, path, env) if getattr(spec, "variant", None) else None
        c = self.eval(node.test, env, path)
        if not self.truth(c, path):
            self.exec_block(node.orelse, env, path)
            return
        try:
            self.exec_block(node.body, env, path)
        except _Continue:
            pass
        except _Break:
            raise Unsupported("break in while loop under invariant")
        self.obligations.append(("loop-preserve:" + spec.name, path.hyps, spec.inv(self, path, env, None)))
        if v0 is not None:
            v1 = spec.variant(self, path, env)
            self.obligations.append(("loop-variant-decreases:" + spec.name, path.hyps, z3.And(v1 < v0, v0 >= 0)))
        raise _PathEnd("loop-preserve")


class _PathEnd(Exception):
    """A proof-only path ends here (loop init / preservation)."""

    def __init__(self, why):
        self.why = why


def _load(t):
    import copy
    t2 = copy.deepcopy(t)
    t2.ctx = ast.Load()
    return t2
