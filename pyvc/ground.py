"""Quantifier handling: universally quantified hypotheses are *schemas* instantiated by
trigger matching over the ground terms of the query (sound for proving: every instance of a
true universal is true); universally quantified goals are skolemised.  What reaches the solver
is quantifier-free, so answers are sat/unsat (never `unknown` for quantifier reasons); a `sat`
answer is only a *candidate* counterexample and is always replayed on the real code.
"""
from __future__ import annotations

import z3


class Q:
    """forall xs: sorts . body(*xs)

    trigger: None -> instantiate over every ground term of the bound sorts (capped);
             FuncDeclRef f (arity = len(sorts) or more) -> for every application f(t1..tn) in the
             query instantiate xs := the arguments selected by `pick` (default: first len(sorts)).
    """

    def __init__(self, sorts, body, trigger=None, pick=None, name="", pool=None):
        self.sorts = list(sorts)
        self.body = body
        self.trigger = trigger
        self.pick = pick
        self.name = name
        self.pool = pool          # optional filter on candidate terms when there is no trigger

    def skolem(self, fresh):
        xs = [fresh(f"sk_{self.name}", s) for s in self.sorts]
        return self.body(*xs)

    def __repr__(self):
        return f"Q<{self.name}>"


def collect(formulas):
    """All distinct application sub-terms (including constants) of the formulas."""
    seen = {}
    stack = [f for f in formulas]
    while stack:
        t = stack.pop()
        k = t.get_id()
        if k in seen:
            continue
        seen[k] = t
        if z3.is_app(t):
            stack.extend(t.children())
        elif z3.is_quantifier(t):
            stack.append(t.body())
    return list(seen.values())


def _is_ground(t):
    return not _has_var(t)


def _has_var(t, _cache={}):
    k = t.get_id()
    if k in _cache:
        return _cache[k]
    if z3.is_var(t):
        r = True
    elif z3.is_app(t):
        r = any(_has_var(c) for c in t.children())
    else:
        r = True
    _cache[k] = r
    return r


def instantiate(ground, schemas, rounds=3, cap=6000, per_sort_cap=160):
    """Return ground instances of the schemas relevant to `ground` (list of z3 Bool)."""
    import itertools
    out = []
    done = set()
    seen = {}                 # term id -> term (all application sub-terms met so far)
    by_sort = {}              # sort id -> [(id, term)] ground, non-literal applications, in discovery order
    by_decl = {}              # decl name -> [term]
    sort_ids = {}
    flt_cache = {}

    def sid(s):
        k = s.get_id()
        sort_ids.setdefault(k, s)
        return k

    def absorb(formulas):
        stack = list(formulas)
        while stack:
            t = stack.pop()
            k = t.get_id()
            if k in seen:
                continue
            seen[k] = t
            if z3.is_app(t):
                stack.extend(t.children())
                if _is_ground(t):
                    if not _is_value_literal(t):
                        by_sort.setdefault(sid(t.sort()), []).append((k, t))
                    if t.num_args() > 0:
                        by_decl.setdefault(t.decl().name(), []).append(t)
            elif z3.is_quantifier(t):
                stack.append(t.body())

    def passes(flt, k, t):
        if flt is None:
            return True
        key = (id(flt), k)
        r = flt_cache.get(key)
        if r is None:
            r = flt_cache[key] = bool(flt(t))
        return r
    absorb(ground)
    for _ in range(rounds):
        new = []
        for q in schemas:
            if q.trigger is None:
                pools = []
                for vi, s in enumerate(q.sorts):
                    flt = q.pool[vi] if isinstance(q.pool, (list, tuple)) else q.pool
                    pool = [(k, t) for k, t in by_sort.get(sid(s), ()) if passes(flt, k, t)]
                    pool.sort(key=lambda kt: kt[0])
                    pools.append(pool[:per_sort_cap])
                combos = itertools.product(*pools)
                keyed = True
            else:
                trig = q.trigger if isinstance(q.trigger, (list, tuple)) else [q.trigger]
                combos = []
                keyed = False
                n = len(q.sorts)
                for d in trig:
                    if d.arity() < n or d.arity() == 0:
                        continue
                    for t in by_decl.get(d.name(), ()):
                        if t.num_args() != d.arity():
                            continue
                        args = t.children()
                        if q.pick is not None:
                            args = [args[i] for i in q.pick]
                        else:
                            args = args[:n]
                        if all(sid(a.sort()) == sid(s_) for a, s_ in zip(args, q.sorts)):
                            combos.append(tuple(args))
            for c in combos:
                if keyed:
                    key = (id(q),) + tuple(k for k, _t in c)
                    c = tuple(t for _k, t in c)
                else:
                    key = (id(q),) + tuple(a.get_id() for a in c)
                if key in done:
                    continue
                done.add(key)
                inst = q.body(*c)
                new.append(inst)
                if len(out) + len(new) > cap:
                    break
        if not new:
            break
        out.extend(new)
        absorb(new)
    return out


def _is_value_literal(t):
    return z3.is_int_value(t) or z3.is_true(t) or z3.is_false(t)


def exists_witness(path, n, pred, name="ex"):
    """A Bool term equivalent to  exists j in [0, n). pred(j)  whose both directions are usable without
    native quantifiers: b => pred(w) for a fresh witness w;  forall j. pred(j) => b  as a schema."""
    b = path.fresh(name, z3.BoolSort())
    w = path.fresh(name + "_w", z3.IntSort())
    path.assume(z3.Implies(b, z3.And(w >= 0, w < n, pred(w))))
    trig, pick = _auto_trigger(pred)
    path.assume(Q([z3.IntSort()], lambda j: z3.Implies(z3.And(j >= 0, j < n, pred(j)), b), trigger=trig, pick=pick, name=name + "-intro"))
    return b


def _auto_trigger(pred):
    """If pred(j) mentions j as a direct argument of an uninterpreted function, that application is the trigger of the
    introduction schema: the schema is only useful for a j about which pred(j) is known, and then such an application is in
    the query.  (None, None): instantiate over the Int terms of the query as before.)"""
    j0 = z3.Int("trigger_probe!")
    try:
        t = pred(j0)
    except Exception:
        return None, None
    stack, seen = [t], set()
    while stack:
        x = stack.pop()
        if x.get_id() in seen or not z3.is_app(x):
            continue
        seen.add(x.get_id())
        kids = x.children()
        if x.decl().kind() == z3.Z3_OP_UNINTERPRETED and kids:
            for i, c in enumerate(kids):
                if c.eq(j0):
                    return x.decl(), [i]
        stack.extend(kids)
    return None, None
