"""Quantifier handling: universally quantified hypotheses are *schemas* instantiated by
trigger matching over the ground terms of the query (sound for proving: every instance of a
true universal is true); universally quantified goals are skolemised.  What reaches the solver
is quantifier-free, so answers are sat/unsat (never `unknown` for quantifier reasons); a `sat`
answer is only a *candidate* counterexample and is always replayed on the real code.
"""
from __future__ import annotations

import z3


class Q:
    """forall xs: sorts . body(*xs)

    trigger: None -> instantiate over every ground term of the bound sorts (capped);
             FuncDeclRef f (arity = len(sorts) or more) -> for every application f(t1..tn) in the
             query instantiate xs := the arguments selected by `pick` (default: first len(sorts)).
    """

    def __init__(self, sorts, body, trigger=None, pick=None, name="", pool=None):
        self.sorts = list(sorts)
        self.body = body
        self.trigger = trigger
        self.pick = pick
        self.name = name
        self.pool = pool          # optional filter on candidate terms when there is no trigger

    def skolem(self, fresh):
        xs = [fresh(f"sk_{self.name}", s) for s in self.sorts]
        return self.body(*xs)

    def __repr__(self):
        return f"Q<{self.name}>"


def collect(formulas):
    """All distinct application sub-terms (including constants) of the formulas."""
    seen = {}
    stack = [f for f in formulas]
    while stack:
        t = stack.pop()
        k = t.get_id()
        if k in seen:
            continue
        seen[k] = t
        if z3.is_app(t):
            stack.extend(t.children())
        elif z3.is_quantifier(t):
            stack.append(t.body())
    return list(seen.values())


def _is_ground(t):
    return not _has_var(t)


def _has_var(t, _cache={}):
    k = t.get_id()
    if k in _cache:
        return _cache[k]
    if z3.is_var(t):
        r = True
    elif z3.is_app(t):
        r = any(_has_var(c) for c in t.children())
    else:
        r = True
    _cache[k] = r
    return r


def instantiate(ground, schemas, rounds=3, cap=4000, per_sort_cap=80):
    """Return ground instances of the schemas relevant to `ground` (list of z3 Bool)."""
    out = []
    done = set()
    formulas = list(ground)
    for _ in range(rounds):
        terms = [t for t in collect(formulas) if z3.is_app(t) and _is_ground(t)]
        new = []
        for q in schemas:
            if q.trigger is None:
                pools = []
                for vi, s in enumerate(q.sorts):
                    flt = q.pool[vi] if isinstance(q.pool, (list, tuple)) else q.pool
                    pool = [t for t in terms if t.sort() == s and not _is_value_literal(t) and (flt is None or flt(t))]
                    pool.sort(key=lambda t: t.get_id())
                    pools.append(pool[:per_sort_cap])
                import itertools
                combos = itertools.product(*pools)
            else:
                trig = q.trigger if isinstance(q.trigger, (list, tuple)) else [q.trigger]
                names = {d.name(): d for d in trig}
                combos = []
                for t in terms:
                    d = t.decl()
                    if d.name() in names and d.arity() >= len(q.sorts) and d.arity() > 0:
                        args = t.children()
                        if q.pick is not None:
                            args = [args[i] for i in q.pick]
                        else:
                            args = args[:len(q.sorts)]
                        if all(a.sort() == s for a, s in zip(args, q.sorts)):
                            combos.append(tuple(args))
            for c in combos:
                key = (id(q), tuple(a.get_id() for a in c))
                if key in done:
                    continue
                done.add(key)
                inst = q.body(*c)
                new.append(inst)
                if len(out) + len(new) > cap:
                    break
        if not new:
            break
        out.extend(new)
        formulas = formulas + new
    return out


def _is_value_literal(t):
    return z3.is_int_value(t) or z3.is_true(t) or z3.is_false(t)


def exists_witness(path, n, pred, name="ex"):
    """A Bool term equivalent to  exists j in [0, n). pred(j)  whose both directions are usable without
    native quantifiers: b => pred(w) for a fresh witness w;  forall j. pred(j) => b  as a schema."""
    b = path.fresh(name, z3.BoolSort())
    w = path.fresh(name + "_w", z3.IntSort())
    path.assume(z3.Implies(b, z3.And(w >= 0, w < n, pred(w))))
    path.assume(Q([z3.IntSort()], lambda j: z3.Implies(z3.And(j >= 0, j < n, pred(j)), b), name=name + "-intro"))
    return b
